"""Property registry: id -> configuration (which machinery decides it)."""
from . import runtime_check, props_h1, mid_check, conc_check, tool_check
from .h1 import P
from .props_h1 import *


def h1prop(module, proj, streams, oracles=None, twins=None, twin_rel=None, phase2=None, **kw):
    if "spec_fields" not in kw:
        kw["spec_fields"] = SPEC_FIELDS.get(module.split(".")[-1])
    if "visible" not in kw:
        kw["visible"] = VISIBLE.get(module.split(".")[-1])
    d = dict(module=module, proj=proj, streams=streams, oracles=oracles or [], twins=twins, twin_rel=twin_rel,
             phase2=phase2, run=runtime_check.run, differs=runtime_check.differs, level="proof")
    d.update(kw)
    return d


VISIBLE = {
    "C01": P(["val", "noerr", "off"]), "C02": P(["trace_ctx"]), "C05": P(["trace_stores", "stores"]),
    "C06": P(["val", "errs"]), "C08": P(["val", "errs", "stores"]), "C10": P(["val", "errs"]), "C11": P(["val", "errs"]),
    "C12": P(["errs"]), "C14": P(["val", "noerr", "errs"]), "C15": P(["val", "errs"]), "C16": P(["val", "errs", "cnt"]),
    "C17": P(["val", "errs"]),
}

# "final": the complete error list Parse returns against the result contract of the specification (Spec.finish; theorem
# C11_parse_contract), in order, the synthesised no-match error (C12_report_is_declarative) and a recovered panic included
SPEC_FIELDS = {"C01": ["match", "val"], "C02": ["trace"], "C05": ["stores"], "C14": ["match", "val", "final"], "C11": ["errs", "final"],
               "C12": ["final"], "C17": ["match", "val", "errs", "final"]}

PROPS = {
    "C01": h1prop("PigeonVerif.Properties.C01", P(["val", "pos", "noerr"]),
                  [("core", 5000, 150000), ("blocks", 1500, 40000), ("throw", 800, 20000), ("lr", 800, 20000), ("utf8", 800, 20000),
                   # bounded-exhaustive (pvenum): every start-rule body of at most 4 nodes (thorough: 5) over 9 leaves, 7 unary and
                   # 2 binary operators x every input over {a,b} up to length 3 (+ stray bytes), options and variants rotated;
                   # quick: a quarter of the 115 760 cases (the residue class depends on the seed), thorough: all 1 237 940
                   ("enum", 29000, 1300000)],
                  # pvlower: what builder.go emits, read back and run, against the reference evaluation of the AST;
                  # pve2e -ref: the whole chain from the grammar TEXT (front-end, builder, go build, runtime) against the
                  # reference interpreter on the AST that was printed
                  tools=[("pvlower", 2500, 40000, []), ("pve2e", 40, 1200, ["-ref"])]),
    "C02": h1prop("PigeonVerif.Properties.C02", P(["trace_ctx"]),
                  [("blocks", 5000, 150000), ("state", 2000, 50000), ("memo", 1000, 30000), ("lr", 1000, 30000), ("utf8", 1000, 20000),
                   # recovery expressions share the label scope of the expression they guard
                   ("throw", 1500, 40000)],
                  oracles=[orc_c02]),
    "C03": dict(module="PigeonVerif.Properties.C03", run=tool_check.run_c03, level="other",
                rule="generated ASTs (all 18 expression kinds, display names, labels, code blocks with nested braces/strings/comments, classes with escapes and Unicode classes) printed in random concrete spellings (4 definition operators, 3 literal quotings with every escape form, comments/whitespace in every position, minimal or redundant parentheses); distinct = distinct text; each text parsed by the real front-end through the verif hook and compared with the expected AST incl. positions, then re-printed and re-parsed",
                explanation="differential round trip on generated grammar texts (execution) + a kernel-checked round-trip theorem for the character-class extraction phase"),
    "C04": dict(module="PigeonVerif.Properties.C04", run=tool_check.run_c04, level="other",
                rule="generated well-formed grammars with compilable Go code blocks x flag sets (quick: 4 random sets per grammar; thorough: all 32 combinations of the five generation switches plus -cache / -receiver-name variants): pigeon, then go vet + go build of all packages of a batch in one module, then every binary is run (init must not panic) and its printed results compared across flag sets; every generated method is checked against the labels in scope",
                explanation="compiles/vets/initialises is a statement about the Go toolchain: decided by execution; Lean covers the method naming scheme (not injective: known finding D4)"),
    "C05": h1prop("PigeonVerif.Properties.C05", P(["trace_stores", "stores", "val"]),
                  [("state", 5000, 150000), ("blocks", 1500, 40000), ("lr", 1000, 30000), ("panic", 500, 10000)]),
    "C06": h1prop("PigeonVerif.Properties.C06", P(["val", "errs", "cnt", "choices", "trace_ctx"]),
                  [("memo", 4000, 120000), ("core", 1500, 40000), ("blocks", 1500, 40000), ("lr", 3000, 80000)],
                  oracles=[orc_c06_bound], twins=twins_c06, twin_rel=rel_c06,
                  variants=[v for v in core.ALL_VARIANTS if v.startswith("o0")], level="other",
                  explanation="Debug/Statistics/Memoize twins of every case are run on the real generated parser and compared; Lean theorems cover the memo-table discipline only (the full memo-soundness statement is false for the unchanged code, finding D7)"),
    "C07": dict(module="PigeonVerif.Properties.C07", run=mid_check.run_c07, differs=mid_check.differs_rt, level="other"),
    "C08": h1prop("PigeonVerif.Properties.C08", P(["val", "pos", "errs", "stores", "trace_ctx", "trace_stores"]),
                  [("lr", 12000, 400000)], twins=twins_c08, twin_rel=rel_c08, level="other", mid_leaders=(3000, 40000), lrwf=True, regen=True,
                  variants=[v for v in core.ALL_VARIANTS if v[5] == "1"],
                  explanation="every generated left-recursive case is run on the real generated parser (all 8 LeftRecursion template variants, Memoize on/off) and on the Lean model (full result incl. values, errors, stores, block trace), and — for direct left recursion without predicates — on the plain parser of its iterative twin grammar, which must match the same prefix"),
    "C09": dict(module="PigeonVerif.Properties.C09", run=tool_check.run_c09, level="translation_validation",
                rule="translation validation of the real ast.Optimize: generated well-formed grammars (leaf rules referenced from several places, nested choices/sequences, adjacent single-rune literals and classes with and without i and ^, adjacent literals, predicates, labels, actions, code predicates, state blocks, throw/recover, random alternate entrypoints) are optimized on an independent copy; original and optimized AST are run by an independent reference PEG interpreter (harness/pvref) on ~12 inputs per entrypoint and compared on acceptance, consumed prefix and the full list of code-block invocations (text, pos, canonical label values); plus entrypoint survival, dangling references, parameter lists",
                explanation="the optimizer is validated against a reference interpreter on generated grammars (execution); Lean proves each rewrite sound as a law of denotational PEG recognition in every context"),
    "C10": h1prop("PigeonVerif.Properties.C10", P(["val", "errs"]),
                  [("mixed", 6000, 200000), ("blocks", 3000, 60000), ("state", 2000, 50000), ("lr", 1500, 40000)],
                  twins=twins_c10, twin_rel=rel_c10,
                  # what builder.go emits with and without -optimize-parser, read back and run, against the reference
                  # evaluation of the AST: a lowering that differs between the two templates shows here
                  tools=[("pvlower", 2500, 30000, [])]),
    "C11": h1prop("PigeonVerif.Properties.C11", P(["val", "errs"]),
                  [("panic", 3000, 90000), ("blocks", 2500, 60000), ("lr", 4000, 100000), ("utf8", 500, 10000),
                   # re-parsed spans with dozens of distinct code-block errors (each message once, however often it was recorded)
                   ("memo", 1500, 30000)], oracles=[orc_c11]),
    "C12": h1prop("PigeonVerif.Properties.C12", P(["errs", "mf"]),
                  [("core", 5000, 150000), ("utf8", 1000, 30000), ("throw", 1000, 30000), ("lr", 1000, 20000),
                   ("enum", 14000, 400000)], oracles=[orc_c12],
                  # Memoize must not change the failure report (C12 has no exemption for it); known finding D30
                  twins=twins_c12, twin_rel=rel_c12,
                  # the REAL tool's syntax errors: the tables of grammar/pigeon.peg run by the model predict `pigeon -x`'s
                  # diagnostic byte for byte (position, expected set, EOF) on generated / mutated grammar texts
                  front_model=(250, 6000)),
    "C13": dict(module="PigeonVerif.Properties.C13", run=tool_check.run_c13, level="other",
                rule="the real pigeon binary (fresh process, 10 s timeout) on valid generated grammars, token/byte mutations, splices, truncations and raw bytes x random flag sets; classified: exit status in the documented set, no panic trace, no hang, exit 0 => output parses as Go, exit 0 never for a text the front-end rejects, non-zero => diagnostic on stderr",
                explanation="totality of the tool is decided by execution on generated and mutated inputs; Lean covers the exit-status decision logic of main()"),
    "C14": h1prop("PigeonVerif.Properties.C14", P(["val", "pos", "noerr", "errs", "trace_blks"]),
                  [("throw", 6000, 200000)],
                  # handlers must also survive -optimize-grammar: the real ast.Optimize on grammars that all carry the
                  # targeted handler families (an outer recovery expression throwing a label only an inner, dynamically
                  # enclosing operator lists), original vs optimized under the reference interpreter, directed inputs
                  # ... and the GENERATOR: what builder.BuildParser emits for grammars with throw / recover (recovery operators as
                  # non-last alternatives, handlers that cannot fail), read back and run on the real runtime, against the
                  # reference evaluation of the AST (round 21: alternatives behind such an operator pruned by the builder)
                  tools=[("pvopt", 1500, 40000, ["-handler-shapes", "-lift", "optmerge-inverted,optshare,optthrow"]),
                         ("pvlower", 1500, 30000, [])]),
    "C15": h1prop("PigeonVerif.Properties.C15", P(["val", "pos", "errs", "mf"]),
                  [("core", 6000, 200000), ("utf8", 2000, 50000), ("blocks", 1000, 20000)],
                  twins=twins_c15, twin_rel=rel_c15, variants=[v for v in core.ALL_VARIANTS if v.endswith("b1")],
                  tools=[("pvlower", 2500, 30000, [])]),
    "C16": h1prop("PigeonVerif.Properties.C16", P(["val", "cnt", "errs"]),
                  [("budget", 6000, 200000), ("memo", 1000, 30000)], oracles=[orc_c16], phase2=phase2_c16,
                  twins=twins_c16_memo, twin_rel=rel_none),
    "C17": h1prop("PigeonVerif.Properties.C17", P(["val", "errs", "pos", "trace_ctx"]),
                  [("utf8", 6000, 200000)], oracles=[orc_c17],
                  # from the grammar text, raw inputs with stray bytes, AllowInvalidUTF8: classes / literals / `.` written
                  # with U+FFFD in every spelling
                  tools=[("pve2e", 40, 1200, ["-ref", "-utf8"])]),
    "C18": dict(module="PigeonVerif.Properties.C18", run=conc_check.run_c18, level="other"),
    "C19": dict(module="PigeonVerif.Properties.C19", run=mid_check.run_c19, level="proof"),
    "C20": dict(module="PigeonVerif.Properties.C20", run=tool_check.run_c20, level="other",
                rule="(a) grammars in the bootstrap subset parsed by bootstrap.Parser in-process and by the generated front-end through the verif hook, ASTs compared modulo positions and display-name quoting, plus the two checked-in grammars; (b) EXHAUSTIVE over the artifact set: copy of the working tree, make clean all, byte comparison of every tracked file",
                explanation="(b) is a finite ground statement decided completely by recomputation; (a) is differential; Lean covers the one place where the two scanners are known to differ"),
}
