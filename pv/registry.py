"""Property registry: id -> configuration (which machinery decides it)."""
from . import runtime_check, props_h1
from .h1 import P
from .props_h1 import *


def h1prop(module, proj, streams, oracles=None, twins=None, twin_rel=None, phase2=None, **kw):
    d = dict(module=module, proj=proj, streams=streams, oracles=oracles or [], twins=twins, twin_rel=twin_rel,
             phase2=phase2, run=runtime_check.run, differs=runtime_check.differs, level="proof")
    d.update(kw)
    return d


PROPS = {
    "C01": h1prop("PigeonVerif.Properties.C01", P(["val", "pos", "noerr"]),
                  [("core", 5000, 150000), ("blocks", 1500, 40000), ("throw", 800, 20000), ("lr", 800, 20000), ("utf8", 800, 20000)]),
    "C05": h1prop("PigeonVerif.Properties.C05", P(["trace_stores", "stores", "val"]),
                  [("state", 5000, 150000), ("blocks", 1500, 40000), ("lr", 1000, 30000), ("panic", 500, 10000)]),
    "C11": h1prop("PigeonVerif.Properties.C11", P(["val", "errs"]),
                  [("panic", 3000, 90000), ("blocks", 2500, 60000), ("utf8", 500, 10000)], oracles=[orc_c11]),
    "C14": h1prop("PigeonVerif.Properties.C14", P(["val", "pos", "noerr", "errs", "trace_blks"]),
                  [("throw", 6000, 200000)]),
    "C16": h1prop("PigeonVerif.Properties.C16", P(["val", "cnt", "errs"]),
                  [("budget", 6000, 200000)], oracles=[orc_c16]),
}
