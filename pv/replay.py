import json, sys
from . import core, h1


def replay(path):
    obj = json.load(open(path))
    prop = obj.get("property")
    print("replay of", path, "property", prop, "kind", obj.get("kind"))
    if "case" not in obj:
        print(json.dumps(obj, indent=1)[:4000])
        return 0
    core.ensure_built()
    ok, out = core.lean_build(["pvdriver"])
    il, ml = h1.run_single(obj["header"], obj["case"])
    print(obj.get("pretty", ""))
    print("IMPL :", il[:2000])
    print("MODEL:", ml[:2000])
    from .registry import PROPS
    cfg = PROPS.get(prop)
    rc = 0
    if cfg and "proj" in cfg:
        ik, mk = il.split(" ", 3)[2], ml.split(" ", 3)[2]
        if ik in ("ret", "panic") and mk in ("ret", "panic"):
            ir, mr = core.parse_result(il), core.parse_result(ml)
            if cfg["proj"](ir) != cfg["proj"](mr):
                print("model and implementation still differ on the projection of", prop)
                rc = 1
            for orc in cfg.get("oracles") or ():
                for v in orc(obj["case"], ir) or ():
                    print("oracle:", v)
                    if v[0] == "viol":
                        rc = 1
        elif ik != mk:
            print("outcome kinds differ:", ik, mk)
            rc = 1
    print("still failing" if rc else "no longer failing")
    return rc
