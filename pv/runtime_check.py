"""The generic check of a property that is decided on the runtime model:
  1. rebuild pigeon + hosts from /repo, 2. build + audit the Lean property module,
  3. correspondence streams (model vs implementation on the property's projection) + direct oracles
     + twin relations, 4. shrink and report, 5. known findings, 6. evidence."""
import subprocess, json, os, time, hashlib
from . import core, h1, findings
from .core import log
from .props_h1 import TRUSTED


def variant_of(cl):
    t = cl.split(" ", 6)
    return "o%sg%sl%sb%s" % (t[2], t[3], t[4], t[5])


def run(prop, cfg, tier, seed):
    t0 = time.time()
    viol = []       # list of dict(kind, why, case, impl, model)
    notes = []
    core.ensure_built()
    wd = core.workdir(prop)

    # ---- Lean
    audit = core.lean_audit(cfg["module"])
    lean_ok = audit["ok"]
    if tier == "thorough" and lean_ok:
        ok, out, dt = core.leanchecker(cfg["module"])
        audit["leanchecker"] = {"ok": ok, "wall_s": round(dt, 1)}
        if not ok:
            audit["problems"].append("leanchecker rejected the module: " + out[-500:])
            lean_ok = False

    # ---- streams
    sr = h1.StreamResult()
    header = None
    twin_pairs = []     # (orig_line, twin_line, relation)
    genstats = {}
    seeds = [seed] if tier == "quick" else [seed, seed * 31 + 7, seed * 131 + 1009]
    stream_no = 0
    for (profile, nq, nt) in cfg["streams"]:
        n = nq if tier == "quick" else max(nq, nt // len(seeds))
        for si, sd in enumerate(seeds):
            stream_no += 1
            tag = "%s_%d" % (profile, si)
            cf = os.path.join(wd, tag + ".gen")
            sf = os.path.join(wd, tag + ".stats.json")
            core.gen_cases(profile, sd, n, cf, variants=cfg.get("variants"), stats=sf, id0=stream_no * 400_000 + 1)
            header, lines = core.read_cases(cf)
            try:
                st = json.load(open(sf))
                genstats[tag] = {k: st[k] for k in st if k in ("kinds", "variants", "profiles", "nodes_hist", "input_len_hist", "input_source", "blocks", "faults", "options")}
            except Exception:
                pass
            alll = list(lines)
            if cfg.get("twins"):
                for cl in lines:
                    c = core.parse_case_head(cl)
                    for tl, rel in cfg["twins"](cl, c):
                        alll.append(tl)
                        twin_pairs.append((cl, tl, rel))
            h1.run_stream(wd, header, alll, cfg["proj"], cfg.get("oracles"), sr, tag, spec_fields=cfg.get("spec_fields"))
            if cfg.get("lrwf"):
                # how many of the generated cases meet the hypothesis of the termination theorem (decided by the
                # kernel-proved checker, on the case's own leader marks)?
                try:
                    acc = core.run_lrwf_lines(header, lines[:20000])
                    sr.stats["lrwf_asked"] = sr.stats.get("lrwf_asked", 0) + len(acc)
                    sr.stats["lrwf_accepted_by_proved_checker"] = sr.stats.get("lrwf_accepted_by_proved_checker", 0) + sum(1 for v in acc.values() if v)
                except Exception as e:
                    log("lrwf query failed: %s" % e)

    # corpus (minimised past failures) runs too
    corpus = findings.corpus_cases(prop)
    if corpus and header:
        h1.run_stream(wd, header, corpus, cfg["proj"], cfg.get("oracles"), sr, "corpus", spec_fields=cfg.get("spec_fields"))

    # ---- twin relations (evaluated on the implementation's results)
    twin_checked = 0
    twin_known = {}
    if twin_pairs:
        res = {}
        for f in os.listdir(wd):
            if f.endswith(".impl"):
                for line in open(os.path.join(wd, f)):
                    sp = line.split(" ", 2)
                    res[sp[1]] = line.rstrip("\n")
        for cl, tl, rel in twin_pairs:
            a = res.get(cl.split(" ", 2)[1])
            b = res.get(tl.split(" ", 2)[1])
            if a is None or b is None:
                continue
            ra, rb = core.parse_result(a), core.parse_result(b)
            if ra["kind"] not in ("ret", "panic") or rb["kind"] not in ("ret", "panic"):
                continue
            twin_checked += 1
            verdict = cfg["twin_rel"](cl, tl, rel, ra, rb)
            if verdict is None:
                continue
            if verdict[0] == "known":
                twin_known[verdict[1]] = twin_known.get(verdict[1], 0) + 1
                sr.known[verdict[1]] = sr.known.get(verdict[1], 0) + 1
                sr.known_samples.setdefault(verdict[1], (cl, a, verdict[2]))
            else:
                sr.oracle_viol.append((cl, a, b, "twin relation '%s' broken: %s" % (rel, verdict[1]), tl))

    # ---- second phase (e.g. C16 unbounded twins of parses that stayed within budget)
    if cfg.get("phase2") and header:
        extra = cfg["phase2"](wd, header, sr)
        for v in extra:
            sr.oracle_viol.append(v)

    if header:
        h1.confirm_timeouts(header, sr)

    # ---- tool streams tied to this property (e.g. pvlower: what builder.go emits for a grammar, read back and run
    # on the real runtime, against the reference evaluation of the AST)
    tool_reports = {}
    tool_fail = []
    for (tool, nq, nt, extra) in cfg.get("tools", []):
        from . import tool_check
        n = nq if tier == "quick" else nt
        r = tool_check.run_tool(tool, seed, n, extra, pigeon=(tool == "pve2e"), prop=prop)
        tool_reports[tool] = {k: r.get(k) for k in ("evaluations", "distinct_nontrivial", "failure_count", "failures_by_kind", "wall_s", "stats")}
        for f in (r.get("failures") or []):
            f = tool_check.keep_failure_file(prop, dict(f))
            f["tool"] = tool
            f["replay_cmd"] = "/verif/build/bin/%s -seed %d -n %d %s" % (tool, seed, n, " ".join(extra))
            tool_fail.append(f)
        tool_fail_total = r.get("failure_count", 0)
        if tool_fail_total > len(r.get("failures") or []):
            tool_fail += [None] * (tool_fail_total - len(r["failures"]))

    # ---- the front-end through the model: the tables the working tree's pigeon generates for grammar/pigeon.peg, run by
    # the Lean runtime model on grammar texts, against the real tool's verdict and diagnostic (pv/front_model.py)
    if cfg.get("front_model"):
        from . import front_model
        nq_f, nt_f = cfg["front_model"]
        fviol, fcov = front_model.run(prop, tier, seed, nq_f, nt_f)
        tool_reports["front-model"] = fcov
        for (kind, d, failing) in fviol:
            d = dict(d)
            d.update(tool="front-model", kind=kind)
            if not failing:
                d["no_failing_input"] = True
            tool_fail.append(d)

    # ---- the analysis the runtime relies on (C08): the builder's leader marks must cover every cycle of its first graph
    if cfg.get("mid_leaders"):
        from . import mid_check
        nq_m, nt_m = cfg["mid_leaders"]
        # ... and the marks the REAL entry point (builder.PrepareGrammar: its own visiting order, Go's map order) leaves on the rules
        # are the ones of the model of the analysis with the sorted visiting order: which rules run the seed-growing loop, and
        # which are exempt from the expression memo, is decided by these marks (round 21: ComputeNullables in definition order)
        pviol, pdis, pn = mid_check.prepare_vs_model(prop, seed, min(nq_m, 1500) if tier == "quick" else nt_m, 2)
        tool_reports["prepare-vs-model"] = {"grammars": pn, "several_outcomes": len(pviol), "disagreements": len(pdis)}
        for cl, dl, ml, why in pviol[:3]:
            tool_fail.append({"tool": "pvmid", "kind": "marks-nondeterministic", "mid_case": cl, "det": dl[:1500], "detail": why})
        for cl, dl, ml in pdis[:3]:
            tool_fail.append({"tool": "pvmid", "kind": "marks-differ-from-model", "mid_case": cl, "det": dl[:1500], "model": ml[:1500],
                              "detail": "builder.PrepareGrammar leaves other leftRecursive / leader marks (or another verdict) on this grammar than the model of the analysis with the sorted visiting order",
                              "no_failing_input": True})
        tool_fail += [None] * max(0, len(pviol) + len(pdis) - min(3, len(pviol)) - min(3, len(pdis)))
        mcases = mid_check.gen_mid(seed, nq_m if tier == "quick" else nt_m)
        mcases = [" ".join(["mid", str(i + 1)] + c.split(" ")[2:]) for i, c in enumerate(mcases)]
        pm = subprocess.run([mid_check.PVMID, "-run"], input=("\n".join(mcases) + "\n").encode(), stdout=subprocess.PIPE, stderr=subprocess.PIPE, timeout=1800)
        if pm.returncode != 0:
            raise RuntimeError("pvmid -run failed: " + pm.stderr.decode()[-2000:])
        mimpl = pm.stdout.decode().splitlines()
        # the same grammars through the Lean model of the analysis: its first graph is the one the leader marks of the
        # builder are held against (the builder's own graph too: either may show a cycle without a leader)
        mfull = core.run_model_lines("unicode 0", mcases)
        mmodel = [mid_check.split_model(x)[0] for x in mfull]
        accepted_lr = 0
        spec_uncovered = 0
        for cl, il, ml, fl in zip(mcases, mimpl, mmodel, mfull):
            if il.split(" ", 3)[2:3] == ["ok1"]:
                accepted_lr += 1
                # the SPECIFICATION's graph has the edges a stale flag loses (findings D37 / D38): a cycle of it through no
                # leader of the builder, while the builder's own graph is covered, is the listed finding D38 - counted, and
                # replayed on the runtime by its witness; throw-free grammars only (the specification has no throw)
                if " thr" not in cl and " rec " not in cl:
                    sg = mid_check.spec_graph(fl)
                    if sg and not mid_check.uncovered_cycle(il) and not mid_check.uncovered_cycle(il, graph_from=ml) \
                            and mid_check.uncovered_cycle(il, graph=sg):
                        spec_uncovered += 1
            cyc = mid_check.uncovered_cycle(il) or mid_check.uncovered_cycle(il, graph_from=ml)
            if cyc:
                tool_fail.append({"tool": "pvmid", "kind": "cycle-without-leader", "mid_case": cl, "impl": il,
                                  "detail": "builder.PrepareGrammar accepts this grammar with -support-left-recursion although the cycle %s of its first graph passes through no leader rule: the generated parser re-enters these rules at the same offset without bound (C08_cycle_without_leader_has_no_ranking; with every cycle covered: C08_left_recursive_parse_terminates)" % " -> ".join(bytes.fromhex(x[1:]).decode("utf8", "replace") for x in cyc),
                                  "replay_cmd": "echo '<mid_case>' | /verif/build/bin/pvmid -run"})
        tool_reports["pvmid-leaders"] = {"evaluations": len(mcases), "accepted_left_recursive": accepted_lr,
                                         "specification_cycles_through_no_builder_leader_D38": spec_uncovered}

    # ---- report
    nviol = 0
    printed = []

    def report(kind, cl, il, ml, why, extra=None):
        nonlocal nviol
        nviol += 1
        if nviol > 3:
            return
        scl = cl
        if kind == "correspondence" and visible_diff(cfg, il, ml):
            # keep the user-visible difference while shrinking: the minimal case is then a failing input
            scl = h1.shrink(wd, header, cl, prop, nviol, visible=True)
        elif kind == "correspondence" or kind == "oracle":
            scl = h1.shrink(wd, header, cl, prop, nviol)
        try:
            sil, sml = h1.run_single(header, scl)
        except Exception as e:
            sil, sml = il, ml
            scl = cl
        # does the property itself fail on the implementation for this (shrunk) case?
        failing = []
        if cfg.get("oracles"):
            try:
                ir = core.parse_result(sil)
                for orc in cfg["oracles"]:
                    for v in orc(scl, ir) or ():
                        if v[0] == "viol":
                            failing.append(v[1])
            except Exception:
                pass
        if kind == "oracle" and not failing:
            failing.append(why)
        if kind == "correspondence" and not failing and cfg.get("visible"):
            # the model is the executable specification of what the user observes here: a difference in the
            # user-visible part of the result is a concrete input on which the implementation deviates from it
            try:
                ir, mr = core.parse_result(sil), core.parse_result(sml)
                vi, vm = cfg["visible"](ir), cfg["visible"](mr)
                if vi != vm:
                    for a, b in zip(vi, vm):
                        if a != b:
                            failing.append("observable result differs from the specification (runtime model, theorems in %s): implementation %s, specification %s" % (cfg["module"], repr(a)[:400], repr(b)[:400]))
                            break
            except Exception:
                pass
        in_sequence = None
        if kind == "correspondence" and not failing and visible_diff(cfg, il, ml):
            # the user-visible difference was there when the case ran as one of many parses in one host process and is
            # gone when it runs alone: the implementation's result depends on what the process parsed before
            in_sequence = {"impl_in_sequence": il, "model": ml}
            failing.append("observable result differs from the specification when the case is one of a sequence of parses in "
                           "one process (see in_sequence), but not when it runs alone in a fresh process: the result depends on "
                           "earlier parses of the process (%s)" % why[:300])
        name = "%s_%s" % (kind, hashlib.md5(scl.encode()).hexdigest()[:10])
        obj = {"property": prop, "kind": kind, "why": why, "tier": tier, "seed": seed, "in_sequence": in_sequence,
               "header": header, "case": scl, "original_case": cl if cl != scl else None,
               "pretty": h1.pretty_case(header, scl), "impl": sil, "model": sml,
               "property_fails_on_impl": failing,
               "broken_obligation": None if failing else ("correspondence RT(model) = generated runtime on projection of %s; theorem module %s" % (prop, cfg["module"])),
               "replay_cmd": "./check --replay <this file>"}
        if extra:
            obj["twin_case"] = extra
        p = core.write_replay(prop, name, obj)
        suffix = "" if failing else " no-failing-input-found"
        printed.append("VIOLATION property=%s replay=%s%s" % (prop, p, suffix))

    if not lean_ok:
        nviol += 1
        p = core.write_replay(prop, "lean_obligation", {"property": prop, "kind": "proof-obligation", "module": cfg["module"],
                                                        "problems": audit["problems"], "broken_obligation": "lake build / axiom audit of " + cfg["module"]})
        printed.append("VIOLATION property=%s replay=%s no-failing-input-found" % (prop, p))
    # ---- regenerated obligations (translator tie): the repository's own grammars, kernel-checked on every run
    gram_cov = None
    if cfg.get("regen"):
        from . import gram_check
        gviol, gram_cov = gram_check.for_property(prop)
        for kind, obj, failing in gviol:
            nviol += 1
            obj.update({"property": prop, "kind": kind, "property_fails_on_impl": [obj["why"]] if failing else [],
                        "broken_obligation": None if failing else "regenerated Lean module of a repository grammar (pv/gram_check.py)"})
            pth = core.write_replay(prop, kind.replace("/", "_") + "_" + hashlib.md5(obj["why"].encode()).hexdigest()[:10], obj)
            printed.append("VIOLATION property=%s replay=%s%s" % (prop, pth, "" if failing else " no-failing-input-found"))
    # ---- known findings: listed ones are reported as such, an unlisted one is a violation
    kf_lines, unlisted = findings.replay_known(prop, header, sr)
    for uid in unlisted:
        cl, il, why = sr.known_samples[uid]
        sr.oracle_viol.append((cl, il, "", "defect class %s (%s) is not a listed known finding of %s" % (uid, why, prop)))

    for f in tool_fail:
        nviol += 1
        if f is None or nviol > 3:
            continue
        k0 = str(f.get("kind", "failure")).replace("/", "_")
        f.update({"property": prop, "kind": "%s/%s" % (f["tool"], k0),
                  "property_fails_on_impl": [f.get("detail") or f.get("kind") or "failure"]})
        name = "%s_%s_%s" % (f["tool"], k0, hashlib.md5(json.dumps(f, sort_keys=True, default=str).encode()).hexdigest()[:10])
        if f.get("no_failing_input"):
            f["property_fails_on_impl"] = []
        printed.append("VIOLATION property=%s replay=%s%s" % (prop, core.write_replay(prop, name, f), " no-failing-input-found" if f.get("no_failing_input") else ""))
    # oracle violations first: they carry a concrete failing input
    for d in sr.oracle_viol[:3]:
        report("oracle", d[0], d[1], d[2], d[3], d[4] if len(d) > 4 else None)
    dis = sorted(sr.disagree, key=lambda d: 0 if visible_diff(cfg, d[1], d[2]) else 1) if len(sr.disagree) <= 5000 else sr.disagree
    for d in dis[:max(1, 3 - len(sr.oracle_viol))]:
        report("correspondence", d[0], d[1], d[2], d[3])
    nviol = max(nviol, (0 if lean_ok else 1) + len(sr.oracle_viol) + len(sr.disagree) + len(tool_fail))

    # ---- evidence
    wall = time.time() - t0
    cov = {
        "obligations": len(audit["theorems"]),
        "discharged": len(audit["theorems"]) if lean_ok else 0,
        "checker_cmd": "cd /verif/lean && lake build %s && lake env lean <#print axioms of every theorem in the module>" % cfg["module"] + ("; lake env leanchecker " + cfg["module"] if tier == "thorough" else ""),
        "trusted_base": TRUSTED,
        "theorems": audit["theorems"],
        "axioms": audit["axioms"],
        "evaluations": sr.cases,
        "distinct_nontrivial": sr.nontrivial,
        "rule": "cases generated by harness/cmd/pvgen (grammar-directed sentence generator + mutation; seeds derived from VERIF_SEED); distinct = distinct (flags, options, grammar, blocks, input) line; non-trivial = the implementation evaluated more than 2 expressions",
        "traces_validated_against_impl": sr.cases - sr.inconclusive,
        "model_impl_disagreements": len(sr.disagree),
        "oracle_violations": len(sr.oracle_viol),
        "inconclusive_both_nonterminating_or_fuel": sr.inconclusive,
        "divergences_outside_this_property_projection": sr.unattributed,
        "twin_pairs_checked": twin_checked,
        "cases_compared_with_independent_specification": sr.stats.get("spec_compared", 0),
        "termination_theorem_hypothesis": {"cases_asked": sr.stats.get("lrwf_asked", 0),
                                           "accepted_by_proved_checker": sr.stats.get("lrwf_accepted_by_proved_checker", 0)} if cfg.get("lrwf") else None,
        "timeouts_on_expensive_cases": sr.stats.get("timeouts_on_expensive_cases", 0),
        "known_finding_hits": sr.known,
        "result_kinds": sr.kinds,
        "streams": [{"profile": p, "n_per_seed": (nq if tier == "quick" else max(nq, nt // len(seeds))), "seeds": seeds} for (p, nq, nt) in cfg["streams"]],
        "generator_stats": genstats,
        "samples": sr.samples,
        "explanation": cfg.get("explanation", ""),
    }
    if gram_cov:
        cov.update(gram_cov)
    if tool_reports:
        cov["tool_reports"] = tool_reports
        cov["evaluations"] += sum(r.get("evaluations") or 0 for r in tool_reports.values())
        cov["distinct_nontrivial"] += sum(r.get("distinct_nontrivial") or 0 for r in tool_reports.values())
    if "leanchecker" in audit:
        cov["leanchecker"] = audit["leanchecker"]
    core.write_evidence(prop, tier, seed, cfg.get("level", "proof"), cov, cfg.get("assumptions", []) + [
        "model/implementation agreement is established by execution on generated cases, not by proof",
    ], wall, nviol)
    for l in kf_lines:
        print(l)
    for l in printed:
        print(l)
    if nviol > 3:
        print("(%d further failing cases not reported individually)" % (nviol - 3))
    log("%s: %d cases, %d disagreements, %d oracle violations, lean_ok=%s, %.1fs" % (prop, sr.cases, len(sr.disagree), len(sr.oracle_viol), lean_ok, wall))
    return 1 if nviol else 0


def visible_diff(cfg, il, ml):
    """does the user-visible part of the result (the property's `visible` projection) differ between the
    implementation's and the model's result line?"""
    if not cfg.get("visible"):
        return False
    try:
        ik, mk = il.split(" ", 3)[2], ml.split(" ", 3)[2]
        if ik not in ("ret", "panic") or mk not in ("ret", "panic"):
            return False
        return cfg["visible"](core.parse_result(il)) != cfg["visible"](core.parse_result(ml))
    except Exception:
        return False


def differs(prop, cfg, casefile, visible=False):
    """exit 0 iff the single case in casefile still shows a projection difference or an oracle violation
    (visible=True: iff it still shows a difference in the user-visible projection)"""
    if visible:
        header, lines = core.read_cases(casefile)
        if not lines:
            return 1
        try:
            il, ml = h1.run_single(header, lines[0])
        except Exception:
            return 1
        return 0 if visible_diff(cfg, il, ml) else 1
    header, lines = core.read_cases(casefile)
    if not lines:
        return 1
    cl = lines[0]
    try:
        il, ml = h1.run_single(header, cl)
    except Exception:
        return 1
    ik, mk = il.split(" ", 3)[2], ml.split(" ", 3)[2]
    if ik in ("crash",):
        return 0
    if h1.inconclusive(ik) or h1.inconclusive(mk) or ik == "badvariant":
        return 0 if (h1.inconclusive(ik) != h1.inconclusive(mk) and mk != "oof") else 1
    ir, mr = core.parse_result(il), core.parse_result(ml)
    if cfg["proj"](ir) != cfg["proj"](mr):
        return 0
    for orc in cfg.get("oracles") or ():
        for v in orc(cl, ir) or ():
            if v[0] == "viol":
                return 0
    if cfg.get("spec_fields"):
        sl = core.run_model_lines(header, [cl], spec=True)[0]
        if sl.split(" ", 3)[2] in ("ok", "fail", "panic") and core.spec_compare(ir, core.parse_spec(sl), cfg["spec_fields"]):
            return 0
    return 1
