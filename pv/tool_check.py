"""C03, C04, C13, C20: checks driven by the front-end / tool / end-to-end harnesses (harness/cmd/pvfront, pvboot,
pvtool, pve2e) + artifact regeneration. Each tool prints one JSON report."""
import json, os, subprocess, time, hashlib, shutil, tempfile
from . import core, findings
from .core import log
from .props_h1 import TRUSTED

PIGEON = os.path.join(core.BIN, "pigeon")


def run_tool(tool, seed, n, extra=(), lift=None, timeout=3600, outdir=None, pigeon=True, prop=""):
    outdir = outdir or os.path.join(core.BUILD, "work", "tool_%s_%s%s" % (tool, prop, "_lift" if lift else ""))
    shutil.rmtree(outdir, ignore_errors=True)
    os.makedirs(outdir, exist_ok=True)
    cmd = [core.need_tool(tool), "-seed", str(seed), "-n", str(n), "-out", outdir] + (["-pigeon", PIGEON] if pigeon else [])
    extra = list(extra)
    if lift:
        if "-lift" in extra:
            i = extra.index("-lift")
            extra[i + 1] = extra[i + 1] + "," + lift
        else:
            extra += ["-lift", lift]
    cmd += extra
    p = subprocess.run(cmd, stdout=subprocess.PIPE, stderr=subprocess.PIPE, timeout=timeout, env=core.goenv(True), stdin=subprocess.DEVNULL)
    if p.returncode != 0:
        # the TOOL itself died (not a verdict about pigeon). Seen once in a fresh sandbox: a Go runtime fatal error with a
        # full goroutine dump 3 s into pve2e, i.e. the process could not get a resource (threads / memory) while 16 go
        # builds were running. Retry once, sequentially enough to fit anywhere, before giving up.
        err1 = p.stderr.decode(errors="replace")
        log("%s died (exit %d): %s ... retrying with -j 2" % (tool, p.returncode, err1[:300].replace("\n", " | ")))
        time.sleep(5)
        shutil.rmtree(outdir, ignore_errors=True)
        os.makedirs(outdir, exist_ok=True)
        cmd2 = cmd + (["-j", "2"] if tool in ("pve2e", "pvlower") else [])
        p = subprocess.run(cmd2, stdout=subprocess.PIPE, stderr=subprocess.PIPE, timeout=timeout, env=core.goenv(True), stdin=subprocess.DEVNULL)
        if p.returncode != 0:
            e = p.stderr.decode(errors="replace")
            raise RuntimeError("%s failed twice (%d): FIRST RUN: %s\n...\n%s\nSECOND RUN: %s\n...\n%s" % (tool, p.returncode, err1[:1500], err1[-500:], e[:1500], e[-500:]))
    out = p.stdout.decode()
    return json.loads(out[out.index("{"):])


def peg_compile_fails(peg, flags):
    """pigeon <flags> -o parser.go peg exits 0 AND `go build` of the result fails"""
    d = tempfile.mkdtemp(prefix="pv.pegc.")
    try:
        open(os.path.join(d, "go.mod"), "w").write("module w\n\ngo 1.25.0\n")
        p = subprocess.run([PIGEON] + list(flags) + ["-o", os.path.join(d, "parser.go"), peg], stdin=subprocess.DEVNULL,
                           stdout=subprocess.PIPE, stderr=subprocess.PIPE, timeout=120)
        if p.returncode != 0:
            return False
        q = subprocess.run(["go", "build", "./..."], cwd=d, env=core.goenv(True), stdin=subprocess.DEVNULL,
                           stdout=subprocess.PIPE, stderr=subprocess.PIPE, timeout=600)
        return q.returncode != 0
    finally:
        shutil.rmtree(d, ignore_errors=True)


def keep_failure_file(prop, f):
    path = f.get("file")
    if path and os.path.exists(path):
        d = os.path.join(core.VERIF, "replays", prop)
        os.makedirs(d, exist_ok=True)
        dst = os.path.join(d, os.path.basename(path))
        shutil.copyfile(path, dst)
        f["file"] = dst
    return f


def generic(prop, cfg, tier, seed, parts, extra_viol=(), extra_cov=None, extra_kf=()):
    """parts: list of (tool, n_quick, n_thorough, extra args, {lift_name: finding id})"""
    t0 = time.time()
    core.ensure_built()
    audit = core.lean_audit(cfg["module"])
    lean_ok = audit["ok"]
    printed, kf = [], list(extra_kf)
    nviol = 0
    total_eval, total_dist = 0, 0
    reports = {}
    lst = findings.listed(prop)

    def rep(kind, obj, failing=True):
        nonlocal nviol
        nviol += 1
        if nviol > 3:
            return
        obj.update({"property": prop, "kind": kind, "property_fails_on_impl": [obj.get("detail") or obj.get("why") or kind] if failing else []})
        name = "%s_%s" % (kind.replace("/", "_"), hashlib.md5(json.dumps(obj, sort_keys=True, default=str).encode()).hexdigest()[:10])
        pth = core.write_replay(prop, name, obj)
        printed.append("VIOLATION property=%s replay=%s%s" % (prop, pth, "" if failing else " no-failing-input-found"))
    if not lean_ok:
        rep("proof-obligation", {"module": cfg["module"], "problems": audit["problems"]}, False)
    for part in parts:
        tool, nq, nt, extra, lifts = part[:5]
        only = part[5] if len(part) > 5 else None      # keep only these failure kinds (the others belong to another property)
        n = nq if tier == "quick" else nt
        tool_lines = os.path.join(core.BUILD, "work", "tool_lines_%s.txt" % prop)
        if tool == "pvtool" and prop == "C13":
            if os.path.exists(tool_lines):
                os.remove(tool_lines)
            extra = list(extra) + ["-toolout", tool_lines]
        r = run_tool(tool, seed, n, extra, pigeon=(tool != "pvopt"), prop=prop)
        if tool == "pvtool" and prop == "C13" and os.path.exists(tool_lines):
            # the exit-status model (lean/PigeonVerif/Model/Tool.lean, the subject of the C13 theorems) against the real
            # binary: what the harness knows of every run's stages + the observed status -> the driver answers with the
            # statuses the model allows
            lines = [l for l in open(tool_lines).read().splitlines() if l.startswith("tool ")]
            q = subprocess.run([core.DRIVER], input=("\n".join(lines) + "\n").encode(), stdout=subprocess.PIPE, stderr=subprocess.PIPE, timeout=600)
            answers = q.stdout.decode().splitlines()
            bad = [(l, a) for l, a in zip(lines, answers) if a.split(" ")[2:3] != ["ok"]]
            if len(answers) != len(lines):
                bad.append(("", "the driver answered %d of %d tool lines: %s" % (len(answers), len(lines), q.stderr.decode()[-300:])))
            r.setdefault("stats", {})
            reports["exit_status_model"] = {"runs_compared": len(lines), "disagreements": len(bad),
                                            "argument_level_runs": sum(1 for l in lines if int(l.split(" ")[1]) > 900000)}
            for l, a in bad[:3]:
                rep("pvtool/exit-status-model", {"detail": "the exit status of this run is not one the model of main() (Tool.exit) allows for what is known of its stages: line `%s` (run index = id - 1 of `pvtool -seed %d -n %d`; ids above 900000 are the fixed argument-level runs of pvtool's argRuns), the model allows `%s`" % (l, seed, n, a),
                                                 "tool_line": l, "model": a})
            nviol += max(0, len(bad) - 3)
        if only is not None:
            r["failures"] = [f for f in (r.get("failures") or []) if f.get("kind") in only]
            r["failure_count"] = sum((r.get("failures_by_kind") or {}).get(k, 0) for k in only)
            r["failures_by_kind"] = {k: v for k, v in (r.get("failures_by_kind") or {}).items() if k in only}
        reports[tool] = {k: r.get(k) for k in ("evaluations", "distinct_nontrivial", "failure_count", "failures_by_kind", "wall_s", "stats")}
        total_eval += r.get("evaluations", 0)
        total_dist += r.get("distinct_nontrivial", 0)
        # failures that carry a concrete failing input first: only three replays are written
        for f in sorted(r.get("failures") or [], key=lambda f: 1 if f.get("kind") == "validator-reject" else 0):
            f = keep_failure_file(prop, dict(f))
            f["tool"] = tool
            f["replay_cmd"] = "/verif/build/bin/%s -seed %d -n %d -pigeon /verif/build/bin/pigeon %s   (or feed the saved file)" % (tool, seed, n, " ".join(extra))
            # a rejection by the verified validator is a broken obligation, not a failing input (the tool's own
            # comparison of sentences is what exhibits one, as a separate failure)
            rep("%s/%s" % (tool, f.get("kind", "failure")), f, failing=(f.get("kind") != "validator-reject"))
        if r.get("failure_count", 0) > len(r.get("failures") or []):
            nviol += r["failure_count"] - len(r["failures"])
        # listed known findings of this tool: does the class still reproduce? The replay uses a FIXED seed and size
        # (independent of VERIF_SEED) so that the line is printed on every run while the finding is there.
        for lift, fid in lifts.items():
            if fid not in lst or lst[fid].get("witness", {}).get("kind") == "peg-compile":
                continue
            try:
                n_kf = int(lst[fid].get("witness", {}).get("n", max(150, nq // 8)))
                rr = run_tool(tool, 1, n_kf, extra, lift=lift, timeout=900, pigeon=(tool != "pvopt"), prop=prop)
                if rr.get("failure_count", 0) > 0:
                    kf.append("KNOWN-FINDING: property=%s %s %s" % (prop, fid, lst[fid]["what"]))
            except Exception as e:
                log("known-finding replay of %s failed: %s" % (fid, e))
    # listed findings whose witness is a grammar file: pigeon accepts it (exit 0), the generated parser does not compile
    for fid, f in sorted(lst.items()):
        w = f.get("witness", {})
        if w.get("kind") == "peg-compile":
            try:
                if peg_compile_fails(os.path.join(core.VERIF, w["file"]), w.get("flags", [])):
                    kf.append("KNOWN-FINDING: property=%s %s %s" % (prop, fid, f["what"]))
            except Exception as e:
                log("known-finding replay of %s failed: %s" % (fid, e))
    for v in extra_viol:
        rep(v[0], v[1], v[2])
    wall = time.time() - t0
    cov = {"obligations": len(audit["theorems"]), "discharged": len(audit["theorems"]) if lean_ok else 0,
           "checker_cmd": "cd /verif/lean && lake build %s && #print axioms audit" % cfg["module"],
           "trusted_base": TRUSTED[:2] + ["harness/pvpeg (grammar generator, printer with position oracle, canonical AST dump), the tools harness/cmd/" + ", ".join(p[0] for p in parts),
                                          "the verif-tagged AST dump hook in package main (verif_astdump.go)", "go vet / go build / go/parser as oracles"],
           "theorems": audit["theorems"], "axioms": audit["axioms"],
           "evaluations": total_eval, "distinct_nontrivial": total_dist,
           "rule": cfg.get("rule", "see the tool reports"),
           "tool_reports": reports,
           "samples": cfg.get("samples", []) or [{"tools": [p[0] for p in parts]}],
           "explanation": cfg.get("explanation", "")}
    if extra_cov:
        cov.update(extra_cov)
    core.write_evidence(prop, tier, seed, cfg.get("level", "other"), cov, cfg.get("assumptions", []), wall, nviol)
    for l in sorted(set(kf)) + printed:
        print(l)
    if nviol > 3:
        print("(%d further failures not reported individually)" % (nviol - 3))
    log("%s: %d evaluations, %d violations, lean_ok=%s %.1fs" % (prop, total_eval, nviol, lean_ok, wall))
    return 1 if nviol else 0


def run_c03(prop, cfg, tier, seed):
    # the front-end through the model (pv/front_model.py): acceptance of a grammar text by the real tool = a match of the
    # start rule of pigeon.peg's tables under the Lean runtime model; a rejection carries the model's diagnostic
    from . import front_model
    fviol, fcov = front_model.run(prop, tier, seed, 250, 6000)
    # the class parser: the real ast.NewCharClassMatcher against its Lean model (the subject of C03_class_parse_roundtrip)
    from . import class_check
    cviol, ccov = class_check.run(prop, tier, seed)
    fviol = list(fviol) + cviol
    fcov.update(ccov)
    return generic(prop, cfg, tier, seed,
                   [("pvfront", 1500, 40000, ["-k", "3"], {"multilineeos": "D20", "slashslashbrace": "D21", "reserved": "F1", "quotebyte": "F2"})],
                   extra_viol=fviol, extra_cov=fcov)


DOCUMENTED_EXITS = {0, 1, 2, 3, 4, 5, 6, 7, 8, 9}


def pigeon_once(path, flags, limit):
    cmd = "ulimit -v 2000000; exec timeout %d %s %s -o /dev/null %s" % (limit, PIGEON, " ".join(flags), path)
    p = subprocess.run(["sh", "-c", cmd], stdout=subprocess.PIPE, stderr=subprocess.PIPE, stdin=subprocess.DEVNULL)
    err = p.stderr.decode(errors="replace")
    if p.returncode == 124:
        return "no exit within %d s" % limit
    if "panic:" in err or "goroutine " in err or "fatal error" in err:
        return "Go panic / fatal error (exit %d): %s" % (p.returncode, err[:300])
    if p.returncode not in DOCUMENTED_EXITS:
        return "undocumented exit status %d: %s" % (p.returncode, err[:300])
    if p.returncode != 0 and not err.strip():
        return "exit %d with empty stderr" % p.returncode
    return None


def corpus_c13(prop):
    """minimised past failures (corpus/C13/*.peg) run first: pigeon must exit with a documented status, without a Go
    panic trace, within 20 s and 2 GB (a hang used to eat memory without bound). corpus/C13/known/<ID>_*.peg are the
    witnesses of the LISTED findings: a failure there prints KNOWN-FINDING (and is a violation if <ID> is not listed)."""
    viol, kf, n = [], [], 0
    lst = findings.listed(prop)
    d = os.path.join(core.VERIF, "corpus", "C13")

    def pegs(dd):
        return [os.path.join(dd, f) for f in sorted(os.listdir(dd)) if f.endswith(".peg")] if os.path.isdir(dd) else []
    for path in pegs(d):
        for flags in ([], ["-optimize-grammar", "-support-left-recursion"]):
            n += 1
            why = pigeon_once(path, flags, 20)
            if why:
                f = os.path.basename(path)
                viol.append(("corpus/%s" % f, {"why": why, "detail": "%s: %s" % (f, why), "file": path, "flags": flags,
                                               "replay_cmd": "timeout 20 /verif/build/bin/pigeon %s -o /dev/null %s" % (" ".join(flags), path)}, True))
    for path in pegs(os.path.join(d, "known")):
        n += 1
        f = os.path.basename(path)
        fid = f.split("_")[0]
        why = pigeon_once(path, [], 5)
        if not why:
            continue
        if fid in lst:
            kf.append("KNOWN-FINDING: property=%s %s %s" % (prop, fid, lst[fid]["what"]))
        else:
            viol.append(("corpus/%s" % f, {"why": why, "detail": "%s: %s" % (f, why), "file": path, "flags": [],
                                           "replay_cmd": "timeout 5 /verif/build/bin/pigeon -o /dev/null %s" % path}, True))
    return viol, kf, n


def run_c13(prop, cfg, tier, seed):
    core.ensure_built()
    viol, kf, n = corpus_c13(prop)
    # regenerated obligations: the front-end grammars (pigeon.peg, bootstrap.peg) as the working tree's pigeon lowers
    # them terminate on every input (kernel-checked on every run)
    from . import gram_check
    gviol, gcov = gram_check.for_property(prop)
    gcov["corpus_runs"] = n
    # the front-end through the model: the parsing stage of the tool is the runtime model run on the regenerated tables
    # of pigeon.peg (the subject of the termination theorem above) - verdict and diagnostic of `pigeon -x` predicted
    from . import front_model
    fviol, fcov = front_model.run(prop, tier, seed, 250, 6000)
    gcov.update(fcov)
    return generic(prop, cfg, tier, seed,
                   [("pvtool", 700, 12000, ["-lift", "optthrow"], {"norecoverpanic": "F4"})],
                   extra_viol=viol + gviol + fviol, extra_cov=gcov, extra_kf=kf)


def run_c04(prop, cfg, tier, seed):
    extra = [] if tier == "quick" else ["-all-flags"]
    core.ensure_built()
    # regenerated obligations: the parameter lists pigeon emits for every grammar of the repository are the ones the model
    # of the generator's label stack assigns (kernel-checked on every run)
    from . import gram_check
    gviol, gcov = gram_check.for_property(prop)
    return generic(prop, cfg, tier, seed,
                   [("pve2e", 30, 250, extra, {"optduplabels": "D5"})], extra_viol=gviol, extra_cov=gcov)


def run_c09(prop, cfg, tier, seed):
    # the avoidances of the repaired defects (D10, D11, D13) are lifted: they must stay repaired
    return generic(prop, cfg, tier, seed,
                   [("pvopt", 4000, 250000, ["-lift", "optmerge-inverted,optshare,optthrow"], {"optlabels": "D5", "optbytes": "O1"}),
                    # the command line: every rule named by (possibly repeated) -alternate-entrypoints survives -optimize-grammar
                    ("pvtool", 3000, 30000, ["-lift", "optthrow"], {}, {"entrypoint-lost"})])


def regenerate_artifacts():
    """copy the working tree, `make clean all`, compare every tracked file"""
    tmp = tempfile.mkdtemp(prefix="pv.artifacts.")
    try:
        rc, out, _ = core.run(["rsync", "-a", "--exclude", ".git", core.REPO + "/", tmp + "/"], check=False)
        if rc != 0:
            raise RuntimeError("rsync failed: " + out[-500:])
        rc, out, dt = core.run(["make", "clean", "all"], cwd=tmp, env=core.goenv(), check=False, timeout=1800)
        if rc != 0:
            return {"make_failed": out[-3000:]}, 0
        rc, files, _ = core.run(["git", "-C", core.REPO, "ls-files"], check=True)
        diffs = []
        n = 0
        for f in files.splitlines():
            a, b = os.path.join(core.REPO, f), os.path.join(tmp, f)
            if not os.path.isfile(a):
                continue
            n += 1
            if not os.path.exists(b):
                diffs.append({"file": f, "what": "missing after make clean all"})
                continue
            da, db = open(a, "rb").read(), open(b, "rb").read()
            if da != db:
                k = next((i for i in range(min(len(da), len(db))) if da[i] != db[i]), min(len(da), len(db)))
                diffs.append({"file": f, "what": "differs at byte %d (line %d)" % (k, da[:k].count(b"\n") + 1)})
        return {"diffs": diffs}, n
    finally:
        shutil.rmtree(tmp, ignore_errors=True)


def run_c20(prop, cfg, tier, seed):
    res, nfiles = regenerate_artifacts()
    viol = []
    if "make_failed" in res:
        viol.append(("artifacts/make-failed", {"why": "make clean all fails on a copy of the working tree", "output": res["make_failed"]}, True))
    for d in res.get("diffs", [])[:10]:
        viol.append(("artifacts/stale", {"why": "checked-in generated file is not what its source regenerates: %s %s" % (d["file"], d["what"]), "file_in_repo": d["file"],
                                         "replay_cmd": "cp -r /repo /tmp/x && cd /tmp/x && make clean all && git diff --stat"}, True))
    # both GENERATED front-ends of the bootstrap chain through the runtime model: the tables the working tree's pigeon generates
    # for grammar/bootstrap.peg resp. grammar/pigeon.peg predict verdict and diagnostic of bootstrap-pigeon -x resp. pigeon -x
    # (a stale or hand-edited bootstrap_pigeon.go / pigeon.go shows as a wrong diagnostic even where the artifacts compare equal
    # only because both were regenerated by a wrong tool)
    from . import front_model
    cov = {"artifact_files_compared": nfiles, "artifact_diffs": len(res.get("diffs", [])), "exhaustive": True}
    for front in ("bootstrap", "pigeon"):
        fviol, fcov = front_model.run(prop, tier, seed, 200, 5000, front=front)
        viol += fviol
        cov.update(fcov)
    return generic(prop, cfg, tier, seed,
                   [("pvboot", 1500, 40000, ["-repo", core.REPO], {"boote000": "F3"}),
                    # the shapes of the listed front-end findings are avoided above (there both front-ends are also held against
                    # the printed grammar); here they are generated and the two front-ends only have to AGREE
                    ("pvboot", 700, 15000, ["-repo", core.REPO, "-lift", "quotebyte", "-agree-only"], {})],
                   extra_viol=viol, extra_cov=cov)
