#!/usr/bin/env python3
"""Regenerates /verif/MANIFEST.json from the registry (pv/registry.py) and the texts below."""
import json, os, sys
sys.path.insert(0, os.path.dirname(os.path.dirname(os.path.abspath(__file__))))
from pv.registry import PROPS
from pv import manifest_texts as T

checks = []
for pid in sorted(PROPS):
    cfg = PROPS[pid]
    t = T.TEXTS[pid]
    checks.append({
        "property_id": pid,
        "quick_cmd": "./check %s --tier quick" % pid,
        "thorough_cmd": "./check %s --tier thorough" % pid,
        "evidence_file": "/verif/evidence/%s.json" % pid,
        "replay_cmd_template": "./check --replay {path}",
        "engine": t.get("engine", "lean-rt"),
        "level_claimed": {"category": cfg.get("level", "proof"), "text": t["level_text"], "design_ref": t["design_ref"]},
        "level_note": t["level_note"],
        "technique": t["technique"],
    })
props = [json.loads(l)["id"] for l in open(os.path.join(os.path.dirname(__file__), "..", "properties.jsonl"))]
na = [{"property_id": p, "reason": T.NOT_CLAIMED.get(p, "check not built yet; see DESIGN.md")} for p in props if p not in PROPS]
m = {
    "version": 1,
    "setup_cmd": "./check --setup",
    "hooks": {"guard": "verif", "enable": "go build -tags verif (the checks build /repo with the tag on)",
              "baseline_off_cmd": "cd /repo && go test -vet=off -count=1 ./...",
              "source_commits": T.HOOK_COMMITS, "add_only": True},
    "engines": [
        {"name": "tools", "path": "/verif/harness", "serves_properties": [p for p in sorted(PROPS) if T.TEXTS[p].get("engine") == "tools"],
         "kind_free_text": "Go harnesses driving the real pigeon binary and front-end: pvfront (round trip through the verif AST-dump hook), pvboot (bootstrap vs generated front-end), pvtool (process-level totality), pve2e (generate + vet + build + run), artifact regeneration; each with a small kernel-checked Lean fragment"},
        {"name": "lean-mid", "path": "/verif/lean", "serves_properties": [p for p in sorted(PROPS) if T.TEXTS[p].get("engine") == "lean-mid"],
         "kind_free_text": "Lean 4 model of the grammar analysis (Model/Mid.lean: nullable flags, first graph, SCCs, leader) + independent specification, tied to ast/ and builder/ by harness/cmd/pvmid"},
        {"name": "lean-rt", "path": "/verif/lean", "serves_properties": [p for p in sorted(PROPS) if T.TEXTS[p].get("engine", "lean-rt") == "lean-rt"],
         "kind_free_text": "Lean 4 model of the generated-parser runtime (Model/Runtime.lean) with kernel-checked theorems (Properties/*.lean), tied to the code by the H1 correspondence stream (harness/: real pigeon-generated parsers for all 16 template variants vs the compiled model driver on generated cases)"},
    ],
    "checks": checks,
    "not_applicable": na,
    "notes": T.NOTES,
}
json.dump(m, open(os.path.join(os.path.dirname(__file__), "..", "MANIFEST.json"), "w"), indent=1)
print("MANIFEST.json: %d checks, %d not claimed" % (len(checks), len(na)))
