#!/usr/bin/env python3
"""Self-test of the checks against the kept seeded changes (/verif/seeded/<name>/patch.diff).

For every seeded change: apply it to /repo's working tree, run the quick check of the property it breaks,
expect a VIOLATION (exit 1), restore /repo. At the end the unchanged tree must pass every check that was used.
Writes /verif/seeded/SELFTEST.md. /repo is restored after every patch (git checkout -- .); nothing is committed.

usage: tools/selftest.py [name-substring ...]
"""
import json, os, subprocess, sys, time

VERIF = "/verif"
REPO = "/repo"


def sh(cmd, **kw):
    return subprocess.run(cmd, stdout=subprocess.PIPE, stderr=subprocess.STDOUT, **kw)


def main():
    os.environ["PV_NO_SHRINK"] = "1"   # the verdict is what counts here; shrinking is most of the time of a failing check
    want = sys.argv[1:]
    names = sorted(d for d in os.listdir(os.path.join(VERIF, "seeded")) if os.path.isdir(os.path.join(VERIF, "seeded", d)))
    if want:
        names = [n for n in names if any(w in n for w in want)]
    if sh(["git", "-C", REPO, "status", "--porcelain"]).stdout.strip():
        sys.exit("selftest: /repo is not clean")
    rows, used = [], set()
    for n in names:
        d = os.path.join(VERIF, "seeded", n)
        meta = json.load(open(os.path.join(d, "meta.json")))
        prop = meta["breaks_property"]
        used.add(prop)
        p = sh(["git", "-C", REPO, "apply", "--whitespace=nowarn", os.path.join(d, "patch.diff")])
        if p.returncode != 0:
            rows.append((n, prop, "patch does not apply (the tree moved on)", 0, 0.0))
            continue
        t0 = time.time()
        try:
            q = sh([os.path.join(VERIF, "check"), prop], cwd=VERIF, timeout=3600)
            out = q.stdout.decode(errors="replace")
            nv = sum(1 for l in out.splitlines() if l.startswith("VIOLATION property=%s " % prop))
            nf = sum(1 for l in out.splitlines() if l.startswith("VIOLATION") and l.rstrip().endswith("no-failing-input-found"))
            verdict = "caught" if q.returncode == 1 and nv > 0 else "MISSED (exit %d)" % q.returncode
            if verdict == "caught" and nf == nv:
                verdict = "caught (no failing input)"
        except subprocess.TimeoutExpired:
            verdict, nv = "TIMEOUT", 0
        finally:
            sh(["git", "-C", REPO, "checkout", "--", "."])
        rows.append((n, prop, verdict, nv, time.time() - t0))
        print("%-50s %s %s (%d lines, %.0fs)" % (n, prop, verdict, nv, time.time() - t0), flush=True)
    clean = []
    for prop in sorted(used):
        q = sh([os.path.join(VERIF, "check"), prop], cwd=VERIF, timeout=3600)
        ok = q.returncode == 0 and b"VIOLATION" not in q.stdout
        clean.append((prop, ok))
        print("unchanged tree %s: %s" % (prop, "pass" if ok else "FAILS"), flush=True)
    with open(os.path.join(VERIF, "seeded", "SELFTEST.md"), "w") as f:
        f.write("# Self-test of the checks against the kept seeded changes\n\n")
        f.write("Produced by `tools/selftest.py` (quick tier, default seed). Each patch is applied to /repo, the check of the\n"
                "property it breaks is run, /repo is restored.\n\n| seeded change | property | result | VIOLATION lines | seconds |\n|---|---|---|---|---|\n")
        for n, prop, verdict, nv, dt in rows:
            f.write("| %s | %s | %s | %d | %.0f |\n" % (n, prop, verdict, nv, dt))
        f.write("\nUnchanged tree afterwards: " + ", ".join("%s %s" % (p, "pass" if ok else "FAILS") for p, ok in clean) + "\n")
    bad = [r for r in rows if not r[2].startswith("caught")] + [c for c in clean if not c[1]]
    sys.exit(1 if bad else 0)


if __name__ == "__main__":
    main()
