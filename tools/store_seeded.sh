#!/bin/sh
# usage: tools/store_seeded.sh <worktree> <name> <property>
# Confirms a sub-agent's seeded change in ITS worktree (unedited suite passes with the change, the demonstration fails
# with it and passes on a clean worktree of HEAD) and stores patch, demonstration and notes under /verif/seeded/<name>/.
set -u
WT=$1; NAME=$2; PROP=$3
export GOFLAGS=-mod=mod GOPROXY=off
OUT=/verif/seeded/$NAME
LOG=/tmp/store_$NAME.log
: > $LOG
[ -f $WT/SEEDED/patch.diff ] || { echo "$NAME: no patch.diff"; exit 2; }
# 1. the patch is what the worktree holds
CLEAN=/tmp/clean_store_$NAME
git -C /repo worktree remove --force $CLEAN >/dev/null 2>&1
git -C /repo worktree add --detach $CLEAN HEAD >>$LOG 2>&1 || { echo "$NAME: cannot add clean worktree"; exit 2; }
( cd $CLEAN && git apply --whitespace=nowarn $WT/SEEDED/patch.diff ) >>$LOG 2>&1 || { echo "$NAME: patch does not apply to HEAD"; }
( cd $CLEAN && git diff --stat | tail -1 ) >>$LOG 2>&1
# 2. suite with the change (in the patched clean worktree: proves the stored patch, not the agent's directory)
( cd $CLEAN && go build ./... && go test -vet=off -count=1 ./... ) >>$LOG 2>&1; SUITE=$?
# 3. demonstration with the change
mkdir -p $CLEAN/SEEDED && cp -r $WT/SEEDED/demo $CLEAN/SEEDED/demo
( cd $CLEAN/SEEDED/demo && if [ -f run.sh ]; then timeout 900 bash run.sh $CLEAN; else timeout 900 go test ./...; fi ) >>$LOG 2>&1; DEMO_WITH=$?
# 4. demonstration without it
( cd $CLEAN && git checkout -- . && git status --short | grep -v SEEDED ) >>$LOG 2>&1
( cd $CLEAN/SEEDED/demo && if [ -f run.sh ]; then timeout 900 bash run.sh $CLEAN; else timeout 900 go test ./...; fi ) >>$LOG 2>&1; DEMO_CLEAN=$?
git -C /repo worktree remove --force $CLEAN >/dev/null 2>&1
echo "$NAME: suite rc=$SUITE; demo(with change) rc=$DEMO_WITH; demo(clean) rc=$DEMO_CLEAN"
if [ $SUITE -eq 0 ] && [ $DEMO_WITH -ne 0 ] && [ $DEMO_CLEAN -eq 0 ]; then
  mkdir -p $OUT && cp $WT/SEEDED/patch.diff $OUT/ && rm -rf $OUT/demo && cp -r $WT/SEEDED/demo $OUT/demo
  [ -f $WT/SEEDED/NOTES.md ] && cp $WT/SEEDED/NOTES.md $OUT/
  echo "suite rc=$SUITE; demo(with change) rc=$DEMO_WITH; demo(clean) rc=$DEMO_CLEAN" > $OUT/.confirmed
  echo "$NAME: stored"
else
  echo "$NAME: NOT stored (see $LOG)"
fi
