#!/bin/bash
# usage: tools/try_harmless.sh [dir...] (default: every /verif/harmless/*/) ; applies each patch.diff to /repo, runs all 20
# quick checks in parallel, restores /repo. Expected: every check exit=0 violations=0.
cd /verif
[ $# -eq 0 ] && set -- /verif/harmless/*/
for d in "$@"; do
  for k in .; do
    p=$d/patch.diff
    [ -f $p ] || continue
    echo "=== $p"
    git -C /repo apply --whitespace=nowarn "$p" || { echo "patch does not apply"; continue; }
    ./check --setup > /dev/null 2>&1
    od=/tmp/harmless_res/$(basename $d); mkdir -p $od; rm -f $od/*
    for i in 01 02 03 04 05 06 07 08 09 10 11 12 13 14 15 16 17 18 19 20; do
      (./check C$i > $od/C$i.out 2>&1; echo "C$i exit=$? violations=$(grep -c '^VIOLATION' $od/C$i.out)" >> $od/summary) &
    done
    wait
    sort $od/summary | tr '\n' ' '; echo
    git -C /repo checkout -- . ; git -C /repo clean -fdq; git -C /repo status --short | head -3
  done
done
