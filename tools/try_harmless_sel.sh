#!/bin/bash
# usage: tools/try_harmless_sel.sh "<dirs>" "<check numbers>"   e.g.  tools/try_harmless_sel.sh "ref_3_1 ref_2_1" "02 03 13"
# like try_harmless.sh, for a selection of harmless patches and of checks (a full run takes hours: every patch to
# static_code.go rebuilds all hosts). Expected: every check exit=0 violations=0.
cd /verif
DIRS=${1:-"ref_3_1 ref_3_2 ref_3_3 ref_3_4 ref_2_1 ref_2_2 ref_2_3 ref_2_4 ref_5_1 ref_5_4 ref_4_2 ref_4_4"}
CHECKS=${2:-"02 03 04 07 12 13 14 18 19 20"}
for d in $DIRS; do
  p=/verif/harmless/$d/patch.diff
  [ -f $p ] || continue
  echo "=== $d"
  git -C /repo apply --whitespace=nowarn "$p" || { echo "patch does not apply"; continue; }
  ./check --setup > /dev/null 2>&1
  od=/tmp/harmless_res/$d; mkdir -p $od; rm -f $od/*
  for i in $CHECKS; do
    (./check C$i > $od/C$i.out 2>&1; echo "C$i exit=$? violations=$(grep -c '^VIOLATION' $od/C$i.out)" >> $od/summary) &
  done
  wait
  sort $od/summary | tr '\n' ' '; echo
  git -C /repo checkout -- . ; git -C /repo clean -fdq; git -C /repo status --short | head -3
done
