#!/bin/sh
# usage: tools/try_mutation.sh <patch.diff> [check ids...]
# applies the patch to /repo, runs the given checks (default: all claimed), reports which raise VIOLATION, restores /repo
set -u
PATCH=$1; shift
cd /verif
IDS="$@"
[ -z "$IDS" ] && IDS=$(python3 -c "import json;print(' '.join(c['property_id'] for c in json.load(open('/verif/MANIFEST.json'))['checks']))")
git -C /repo apply --whitespace=nowarn "$PATCH" || { echo "patch does not apply"; exit 2; }
trap 'git -C /repo checkout -- . ; git -C /repo status --short | head -3' EXIT
mkdir -p /tmp/trymut
for id in $IDS; do
  ./check $id > /tmp/trymut/$id.out 2>/tmp/trymut/$id.err; rc=$?
  v=$(grep -c '^VIOLATION' /tmp/trymut/$id.out)
  nf=$(grep -c 'no-failing-input-found' /tmp/trymut/$id.out)
  echo "$id exit=$rc violations=$v (no-failing-input: $nf) $(tail -1 /tmp/trymut/$id.err | cut -c1-150)"
done
